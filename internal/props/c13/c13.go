// Package c13: concurrent states never interfere; channels deliver each value
// once, in order. Built with -race; race reports are collected from GORACE log
// files by the driver. Histories of channel operations are checked offline
// (exactly-once, per-sender order, closure) and with porcupine against a FIFO
// queue-with-close model.
package c13

import (
	"context"
	"encoding/json"
	"fmt"
	"math/rand"
	"runtime"
	"sort"
	"strings"
	"sync"
	"sync/atomic"
	"time"

	"github.com/anishathalye/porcupine"
	lua "github.com/yuin/gopher-lua"
	"github.com/yuin/gopher-lua/parse"

	"verif/internal/fw"
	"verif/internal/gl"
	"verif/internal/last"
	"verif/internal/lgen"
)

func init() {
	fw.Register(&fw.Prop{
		ID:    "C13",
		Level: "exploration",
		Rule: "scenarios under the Go race detector (binary built with -race, reports collected from GORACE log files, halt_on_error=0): " +
			"(A) compute: N in {2,4,16} goroutines, each with its own LState, all executing the same pre-compiled prototypes (generated core/call/closure/coroutine programs and pattern/format/table-heavy scripts) while other goroutines create and close states, compile new chunks and churn auto-growing call stacks; every state's trace must equal the sequential reference and a deep digest of every shared FunctionProto (all exported fields + stringConstants, recursively) must be unchanged; " +
			"(B) channels: P producers x C consumers as Lua scripts over shared channels of capacity 0/1/8, unique payloads (sender, seq), every send/receive/close stamped at the client boundary with a shared atomic clock; offline: multiset sent == received (exactly once), per-sender order at every receiver, (false,nil) only after close and drain, porcupine linearizability against a FIFO-queue-with-close model (10 s per channel, timeout = inconclusive); " +
			"every consumer also keeps what it received in a table and reads it back after the producers' states are closed and another state has done arithmetic (a received value stays what it was); " +
			"(B2) conservation under cancellation: 64-256 unique values queued, the state's context cancelled, receives through the Go API: delivered + still queued = every value exactly once and in order, a refused receive takes nothing; the mirror for sends (accepted = in the channel once, refused = absent); " +
			"shared prototypes also include a traceback/argument-error workload (names resolved through fs[i]() and tail-call sites) and a math.randomseed/math.random workload; " +
			"(C) on a state without and with an (undone) context: select readiness by handshake (only ready cases are picked, default only when none is ready) and payload refusal (function, userdata, thread, table with metatable raise; plain tables pass by reference); " +
			"GOMAXPROCS in {2,4,16} and seeded jitter (Gosched/short spins) between Lua operations; non-trivial = a scenario with >=2 concurrent states and >=50 events or trace entries; distinct by scenario hash",
		Assumptions: []string{
			"only the schedules the Go scheduler and the jitter produce are observed; the race detector sees races between accesses that actually execute",
			"stamps are taken in Lua around each channel operation, so recorded intervals contain the real ones (sound for linearizability)",
		},
		CrashIsViolation: true,
		Race:             true,
		Shards:           4,
		Run:              run,
		Replay:           replay,
		WatchdogQuick:    1200,
	})
}

type Case struct {
	Kind string `json:"kind"`
	Idx  int    `json:"idx"`
	Diff string `json:"diff,omitempty"`
	Info string `json:"info,omitempty"`
}

// ---------- proto digest ----------

func digest(p *lua.FunctionProto, sb *strings.Builder) {
	fmt.Fprintf(sb, "{%s|%d|%d|%d|%d|%d|%d|", p.SourceName, p.LineDefined, p.LastLineDefined, p.NumUpvalues, p.NumParameters, p.IsVarArg, p.NumUsedRegisters)
	for _, c := range p.Code {
		fmt.Fprintf(sb, "%x,", c)
	}
	sb.WriteByte('|')
	for _, k := range p.Constants {
		fmt.Fprintf(sb, "%T:%v,", k, k)
	}
	sb.WriteByte('|')
	for _, l := range p.DbgSourcePositions {
		fmt.Fprintf(sb, "%d,", l)
	}
	sb.WriteByte('|')
	for _, l := range p.DbgLocals {
		fmt.Fprintf(sb, "%s:%d:%d,", l.Name, l.StartPc, l.EndPc)
	}
	sb.WriteByte('|')
	for _, l := range p.DbgCalls {
		fmt.Fprintf(sb, "%s:%d,", l.Name, l.Pc)
	}
	sb.WriteByte('|')
	fmt.Fprintf(sb, "%v|%v|", p.DbgUpvalues, lua.VerifStringConstants(p))
	for _, c := range p.FunctionPrototypes {
		digest(c, sb)
	}
	sb.WriteByte('}')
}

func protoDigest(p *lua.FunctionProto) string {
	var sb strings.Builder
	digest(p, &sb)
	return sb.String()
}

// ---------- (A) compute ----------

const heavy = `
local t = {}
for i = 1, 60 do t[#t + 1] = (i * 37) % 101 end
table.sort(t)
emit(table.concat(t, ","))
local s = ("the quick brown fox %d"):format(42)
emit(s:gsub("%w+", function(w) return w:upper() end))
emit(s:find("(%a+) (%a+)"), s:match("%d+"), #s:rep(10))
for w in s:gmatch("%a+") do emit(w) end
emit(string.format("%5.2f|%-5d|%x|%q", 3.14159, 42, 255, "a\nb"))
local acc = 0
for i = 1, 2000 do acc = (acc * 31 + i) % 1000003 end
emit(acc, math.floor(2^20), tostring(1/3))
local function deep(n) if n == 0 then return 0 end return 1 + deep(n - 1) end
emit(deep(150))
`

func compile(src string) (*lua.FunctionProto, error) {
	ch, err := parse.Parse(strings.NewReader(src), "<string>")
	if err != nil {
		return nil, err
	}
	return lua.Compile(ch, "<string>")
}

func runProto(p *lua.FunctionProto, opts lua.Options, jit *rand.Rand) ([]string, string) {
	L := lua.NewState(opts)
	defer L.Close()
	var trace []string
	ids := gl.NewIDMap()
	L.SetGlobal("emit", L.NewFunction(func(L *lua.LState) int {
		var parts []string
		for i := 1; i <= L.GetTop(); i++ {
			parts = append(parts, gl.Canon(L.Get(i), ids))
		}
		trace = append(trace, strings.Join(parts, ","))
		if jit != nil && jit.Intn(8) == 0 {
			runtime.Gosched()
		}
		return 0
	}))
	for _, n := range []string{"bag", "bagflush", "scrub", "snap"} {
		L.SetGlobal(n, L.NewFunction(func(L *lua.LState) int { return 0 }))
	}
	L.SetGlobal("hostret", L.NewFunction(func(L *lua.LState) int {
		n := L.CheckInt(1)
		if n > L.GetTop()-1 {
			n = L.GetTop() - 1
		}
		vals := make([]lua.LValue, 0, n)
		for i := 0; i < n; i++ {
			vals = append(vals, L.Get(2+i))
		}
		for _, v := range vals {
			L.Push(v)
		}
		return n
	}))
	L.SetGlobal("hosttop", L.NewFunction(func(L *lua.LState) int {
		n := L.CheckInt(1)
		if n > L.GetTop()-1 {
			n = L.GetTop() - 1
		}
		return n
	}))
	o := gl.Protect(func() error {
		L.Push(L.NewFunctionFromProto(p))
		return L.PCall(0, lua.MultRet, nil)
	})
	status := "ok"
	if o.GoPanic != nil {
		status = "GOPANIC " + o.PanicStr
	} else if o.Err != nil {
		status = "error " + errClass(o.Err.Error())
	}
	return trace, status
}

func errClass(s string) string {
	if i := strings.Index(s, "\n"); i >= 0 {
		s = s[:i]
	}
	return s
}

// tracebacks: function names in tracebacks and argument errors are resolved at
// run time from the call site's debug records (call sites without a static
// name: fs[i](), tail calls); resolving must not write to the prototype.
const tracebacks = `
local fs = {}
for i = 1, 4 do
  fs[i] = function(n)
    if n == 0 then return debug.traceback("tb" .. i) end
    return (fs[(i % 4) + 1](n - 1))
  end
end
local function scrub(s) return (tostring(s):gsub("0x%x+", "ADDR")) end
emit(scrub(fs[1](5)))
emit(scrub(fs[3](2)))
emit(scrub(fs[2](7)))
local function tail(n) if n == 0 then return debug.traceback("tail") end return tail(n - 1) end
emit(scrub(tail(3)))
emit(scrub(select(2, xpcall(function() fs[2](1); local t = nil; return t.x end, debug.traceback))))
emit(scrub(select(2, xpcall(function() return fs[4](0) .. nil end, debug.traceback))))
emit(pcall(function() local m = {f = string.rep}; return m.f() end))
emit(pcall(function() return ("x"):rep({}) end))
local co = coroutine.wrap(function() return scrub(fs[1](3)) end)
emit(co())
`

func randomSrc(seed int) string {
	return fmt.Sprintf(`
math.randomseed(%d)
local t = {}
for i = 1, 40 do t[i] = math.random(1000) end
emit(table.concat(t, ","))
emit(math.random() < 1, math.random(5, 6) >= 5)
for i = 1, 400 do t[i %% 40 + 1] = math.random(100000) if i %% 50 == 0 then emit(i) end end
emit(table.concat(t, ","))
`, seed)
}

func buildSource(c *fw.Ctx, idx, k int) string {
	r := c.SubRand("src", idx*100+k)
	switch (idx + k) % 7 {
	case 5:
		return tracebacks
	case 6:
		return randomSrc(idx)
	case 0:
		return heavy
	case 1:
		f := lgen.Features{Calls: true, Varargs: true, Goto: true, Closures: true, MaxStmts: 15 + r.Intn(40), MaxDepth: 3, ExprDepth: 3}
		return last.Render(lgen.New(r, f).Program(), nil)
	case 2:
		return last.Render(lgen.New(r, lgen.Features{}).CallProgram(), nil)
	case 3:
		return last.Render(lgen.New(r, lgen.Features{}).ClosureProgram(), nil)
	default:
		return last.Render(lgen.New(r, lgen.Features{}).CoroutineProgram(), nil)
	}
}

func runCompute(c *fw.Ctx, idx int, count bool) {
	r := c.SubRand("compute", idx)
	cs := Case{Kind: "compute", Idx: idx}
	c.Begin(cs)
	nprotos := 2 + r.Intn(3)
	var protos []*lua.FunctionProto
	var srcs []string
	var refs [][]string
	var refStatus []string
	var digests []string
	for k := 0; k < nprotos; k++ {
		src := buildSource(c, idx, k)
		p, err := compile(src)
		if err != nil {
			continue
		}
		protos = append(protos, p)
		srcs = append(srcs, src)
		digests = append(digests, protoDigest(p))
		tr, st := runProto(p, lua.Options{}, nil)
		refs = append(refs, tr)
		refStatus = append(refStatus, st)
	}
	N := []int{2, 4, 16}[r.Intn(3)]
	procs := []int{2, 4, 16}[r.Intn(3)]
	old := runtime.GOMAXPROCS(procs)
	defer runtime.GOMAXPROCS(old)
	var wg sync.WaitGroup
	var mu sync.Mutex
	bad := ""
	stop := int32(0)
	// background churn: states, compiles, auto-growing stacks
	for b := 0; b < 2; b++ {
		wg.Add(1)
		go func(b int) {
			defer wg.Done()
			br := rand.New(rand.NewSource(int64(idx*10 + b)))
			for i := 0; atomic.LoadInt32(&stop) == 0 && i < 400; i++ {
				switch br.Intn(3) {
				case 0:
					L := lua.NewState(lua.Options{MinimizeStackMemory: true, CallStackSize: 64})
					L.DoString("local function d(n) if n == 0 then return 0 end return 1 + d(n - 1) end return d(40)")
					L.Close()
				case 1:
					compile(fmt.Sprintf("local a = %d\nreturn a + %d, 'k%d', function() return a end", i, b, i))
				default:
					L := lua.NewState()
					L.DoString("return ('x'):rep(10):upper(), #{1,2,3}")
					L.Close()
				}
			}
		}(b)
	}
	var total int64
	for g := 0; g < N; g++ {
		wg.Add(1)
		go func(g int) {
			defer wg.Done()
			jr := rand.New(rand.NewSource(int64(idx*1000 + g)))
			for rep := 0; rep < 3; rep++ {
				k := (g + rep) % len(protos)
				opts := lua.Options{}
				if jr.Intn(2) == 0 {
					opts = lua.Options{MinimizeStackMemory: true, CallStackSize: 256, RegistrySize: 256, RegistryMaxSize: 65536}
				}
				if rep == 1 {
					// compile the same text while the others compile and run: the result
					// must be the prototype the sequential compilation gave
					if p2, err := compile(srcs[k]); err != nil || protoDigest(p2) != digests[k] {
						mu.Lock()
						if bad == "" {
							bad = fmt.Sprintf("goroutine %d: compiling source %d concurrently gave a different prototype than compiling it alone (err=%v)", g, k, err)
						}
						mu.Unlock()
					}
				}
				tr, st := runProto(protos[k], opts, jr)
				atomic.AddInt64(&total, int64(len(tr)))
				if st != refStatus[k] || strings.Join(tr, ";") != strings.Join(refs[k], ";") {
					mu.Lock()
					if bad == "" {
						bad = fmt.Sprintf("goroutine %d running shared prototype %d: status %q (sequential %q), %d trace entries (sequential %d)", g, k, st, refStatus[k], len(tr), len(refs[k]))
					}
					mu.Unlock()
				}
			}
		}(g)
	}
	// wait for the compute goroutines, then stop the churn
	done := make(chan struct{})
	go func() { wg.Wait(); close(done) }()
	select {
	case <-done:
	case <-time.After(5 * time.Minute):
	}
	atomic.StoreInt32(&stop, 1)
	<-done
	for k, p := range protos {
		if protoDigest(p) != digests[k] {
			bad = fmt.Sprintf("shared prototype %d was modified by executing it", k)
		}
	}
	if i := lua.VerifPreloadsIntact(); i >= 0 {
		bad = fmt.Sprintf("shared preloaded number %d was overwritten", i)
	}
	if count {
		c.Count("compute_scenarios", 1)
		c.Count("compute_goroutines", int64(N))
		c.Count("compute_trace_entries", total)
		c.Count(fmt.Sprintf("gomaxprocs_%d", procs), 1)
	}
	if bad != "" {
		cs.Diff = bad
		c.Violation("concurrent states interfere: "+bad, cs)
		c.End(false, "")
		return
	}
	if count && c.WantSample() {
		c.Sample(map[string]any{"kind": "compute", "goroutines": N, "gomaxprocs": procs, "shared_protos": len(protos), "trace_entries": total})
	}
	c.End(N >= 2 && total >= 50, fmt.Sprintf("compute/%d", idx))
}

// ---------- (A2) per-state library tables ----------

const taintSrc = `
local id = ID
local ch = channel.make(1)
local places = {
  function() return string end, function() return table end, function() return math end, function() return os end,
  function() return io end, function() return coroutine end, function() return channel end, function() return debug end,
  function() return package end, function() return package.loaded end, function() return package.preload end, function() return _G end,
  function() return getmetatable("") end, function() return getmetatable("").__index end,
  function() return getmetatable(ch) end, function() return getmetatable(ch).__index end,
  function() return debug.getfenv(ch.send) end, function() return debug.getfenv(string.rep) end, function() return debug.getfenv(ch.receive) end,
  function() return debug.getregistry() end,
  function() return getmetatable(io.stdout) end, function() return getmetatable(io.stdout).__index end,
  function() return debug.getfenv(io.stdout) end,
}
local tables = 0
for rep = 1, REPS do
  for i, p in ipairs(places) do
    local ok, t = pcall(p)
    if ok and type(t) == "table" then
      tables = tables + 1
      local seen = rawget(t, "taint")
      if seen ~= nil and seen ~= id then emit("foreign", i, seen) end
      rawset(t, "taint", id)
    end
  end
end
emit("done", id, tables > 0)
`

// runTaint: N states in goroutines write their own id into every library
// table, type metatable, method table and function environment they can
// reach, over and over, and must never read back another state's id.
const sameTextSrc = "local ok, m = pcall(function()\n  error('boom')\nend)\nreturn m, debug.getinfo(1, 'S').source\n"

func runTaint(c *fw.Ctx, idx int, count bool) {
	cs := Case{Kind: "taint", Idx: idx}
	c.Begin(cs)
	N := []int{2, 4, 8}[idx%3]
	var wg sync.WaitGroup
	var mu sync.Mutex
	bad := ""
	for g := 0; g < N; g++ {
		wg.Add(1)
		go func(g int) {
			defer wg.Done()
			L := lua.NewState()
			defer L.Close()
			var trace []string
			L.SetGlobal("emit", L.NewFunction(func(L *lua.LState) int {
				var parts []string
				ids := gl.NewIDMap()
				for i := 1; i <= L.GetTop(); i++ {
					parts = append(parts, gl.Canon(L.Get(i), ids))
				}
				trace = append(trace, strings.Join(parts, ","))
				return 0
			}))
			L.SetGlobal("ID", lua.LNumber(1000*idx+g))
			L.SetGlobal("REPS", lua.LNumber(40))
			o := gl.Protect(func() error { return L.DoString(taintSrc) })
			want := fmt.Sprintf(`"done",%d,true`, 1000*idx+g)
			mu.Lock()
			defer mu.Unlock()
			switch {
			case bad != "":
			case o.GoPanic != nil:
				bad = "Go panic: " + o.PanicStr
			case o.Err != nil:
				bad = "script failed: " + errClass(o.Err.Error())
			case len(trace) != 1 || trace[0] != want:
				bad = fmt.Sprintf("state %d read another state's mark in one of its library tables: %v", g, trace)
			}
			if bad == "" {
				// every state loads the very same text, each under its own chunk name: what the text observes of
				// its name (error positions, debug.getinfo) is a function of this state's Load call alone
				name := fmt.Sprintf("chunk-%d-of-state-%d.lua", idx, g)
				var msg, source string
				o := gl.Protect(func() error {
					fn, err := L.Load(strings.NewReader(sameTextSrc), name)
					if err != nil {
						return err
					}
					L.Push(fn)
					if err := L.PCall(0, 2, nil); err != nil {
						return err
					}
					msg, source = L.Get(-2).String(), L.Get(-1).String()
					L.Pop(2)
					return nil
				})
				switch {
				case o.GoPanic != nil:
					bad = "Go panic: " + o.PanicStr
				case o.Err != nil:
					bad = "same-text script failed: " + errClass(o.Err.Error())
				case !strings.HasPrefix(msg, name+":2:") || !strings.Contains(source, name):
					bad = fmt.Sprintf("state %d loaded the shared text as %q but its error position reads %q and debug.getinfo(1,'S').source %q", g, name, msg, source)
				}
			}
		}(g)
	}
	wg.Wait()
	if count {
		c.Count("taint_scenarios", 1)
		c.Count("taint_states", int64(N))
		c.Count("same_text_loaded_under_distinct_chunk_names", int64(N))
	}
	if bad != "" {
		cs.Diff = bad
		c.Violation("concurrent states interfere: "+bad, cs)
		c.End(false, "")
		return
	}
	c.End(true, fmt.Sprintf("taint/%d", idx))
}

// ---------- (B) channels ----------

type chEvent struct {
	Client int
	Op     string // send | recv | close
	Ch     int
	V      int // payload (sender*1e6+seq) or -1
	OK     bool
	Call   int64
	Ret    int64
}

type qState struct {
	q      string // comma separated payloads
	closed bool
}

var queueModel = porcupine.Model{
	Init: func() interface{} { return qState{} },
	Step: func(state, input, output interface{}) (bool, interface{}) {
		st := state.(qState)
		e := input.(chEvent)
		switch e.Op {
		case "send":
			if st.closed {
				return false, st
			}
			if st.q == "" {
				return true, qState{q: fmt.Sprint(e.V)}
			}
			return true, qState{q: st.q + "," + fmt.Sprint(e.V)}
		case "close":
			return true, qState{q: st.q, closed: true}
		case "recv":
			out := output.(chEvent)
			if !out.OK {
				return st.closed && st.q == "", st
			}
			head, rest := st.q, ""
			if i := strings.Index(st.q, ","); i >= 0 {
				head, rest = st.q[:i], st.q[i+1:]
			}
			if st.q == "" || head != fmt.Sprint(out.V) {
				return false, st
			}
			return true, qState{q: rest, closed: st.closed}
		}
		return false, st
	},
	Equal: func(a, b interface{}) bool { return a.(qState) == b.(qState) },
}

const producerSrc = `
local me, n = ...
for seq = 1, n do
  local ci = (seq + me) % #chans + 1
  local v = me * 1000000 + seq
  jitter()
  local t0 = stamp()
  chans[ci]:send(v)
  local t1 = stamp()
  log("send", ci, v, true, t0, t1)
end
`

const consumerSrc = `
local me, ci = ...
local kept = {}
while true do
  jitter()
  local t0 = stamp()
  local ok, v = chans[ci]:receive()
  local t1 = stamp()
  log("recv", ci, v or -1, ok, t0, t1)
  if not ok then break end
  kept[#kept + 1] = v
end
-- the senders' states are closed by now and other states have run since: a value
-- that was received stays what it was
for i = 1, #kept do log("kept", ci, kept[i], true, i, i) end
`

func runChannels(c *fw.Ctx, idx int, count bool) {
	r := c.SubRand("chan", idx)
	cs := Case{Kind: "channels", Idx: idx}
	c.Begin(cs)
	P := 1 + r.Intn(4)
	nch := 1 + r.Intn(2)
	consPer := 1 + r.Intn(3)
	capacity := []int{0, 1, 8}[r.Intn(3)]
	perProducer := 10 + r.Intn(40)
	procs := []int{2, 4, 16}[r.Intn(3)]
	old := runtime.GOMAXPROCS(procs)
	defer runtime.GOMAXPROCS(old)
	chans := make([]chan lua.LValue, nch)
	for i := range chans {
		chans[i] = make(chan lua.LValue, capacity)
	}
	var clock int64
	var mu sync.Mutex
	var events []chEvent
	bad := ""
	setup := func(client int) *lua.LState {
		L := lua.NewState()
		tb := L.NewTable()
		for i, ch := range chans {
			tb.RawSetInt(i+1, lua.LChannel(ch))
		}
		L.SetGlobal("chans", tb)
		jr := rand.New(rand.NewSource(int64(idx*100 + client)))
		L.SetGlobal("jitter", L.NewFunction(func(L *lua.LState) int {
			switch jr.Intn(6) {
			case 0:
				runtime.Gosched()
			case 1:
				for i := 0; i < jr.Intn(2000); i++ {
					_ = i
				}
			}
			return 0
		}))
		L.SetGlobal("stamp", L.NewFunction(func(L *lua.LState) int {
			L.Push(lua.LNumber(atomic.AddInt64(&clock, 1)))
			return 1
		}))
		L.SetGlobal("log", L.NewFunction(func(L *lua.LState) int {
			e := chEvent{Client: client, Op: L.CheckString(1), Ch: L.CheckInt(2), V: L.CheckInt(3), OK: lua.LVAsBool(L.Get(4)), Call: int64(L.CheckInt(5)), Ret: int64(L.CheckInt(6))}
			mu.Lock()
			events = append(events, e)
			mu.Unlock()
			return 0
		}))
		return L
	}
	runScript := func(L *lua.LState, src string, args ...lua.LValue) {
		fn, err := L.LoadString(src)
		if err == nil {
			L.Push(fn)
			for _, a := range args {
				L.Push(a)
			}
			err = L.PCall(len(args), 0, nil)
		}
		if err != nil {
			mu.Lock()
			if bad == "" {
				bad = "script failed: " + errClass(err.Error())
			}
			mu.Unlock()
		}
		L.Close()
	}
	var pw, cw sync.WaitGroup
	for p := 0; p < P; p++ {
		pw.Add(1)
		go func(p int) {
			defer pw.Done()
			runScript(setup(p+1), producerSrc, lua.LNumber(p+1), lua.LNumber(perProducer))
		}(p)
	}
	client := 100
	for ci := 0; ci < nch; ci++ {
		for k := 0; k < consPer; k++ {
			client++
			cw.Add(1)
			go func(client, ci int) {
				defer cw.Done()
				runScript(setup(client), consumerSrc, lua.LNumber(client), lua.LNumber(ci+1))
			}(client, ci)
		}
	}
	finished := make(chan struct{})
	go func() {
		pw.Wait()
		// all sends done: close through the Lua API from a closer state
		L := setup(999)
		runScript(L, `local x = 0.25 for i = 1, 400 do x = x + i * 1.5 end for i = 1, #chans do local t0 = stamp() chans[i]:close() local t1 = stamp() log("close", i, -1, true, t0, t1) end`)
		cw.Wait()
		close(finished)
	}()
	select {
	case <-finished:
	case <-time.After(3 * time.Minute):
		c.Inconclusive("channel scenario did not finish within the watchdog")
		c.End(false, "")
		return
	}
	// offline checks
	sent := map[int]int{}
	recv := map[int]int{}
	lastSeq := map[[3]int]int{} // (receiver, channel, sender) -> last seq
	byCh := map[int][]chEvent{}
	closedSeen := map[int]int64{}
	mu.Lock()
	evs := append([]chEvent(nil), events...)
	mu.Unlock()
	// what each receiver kept must be what it received, in that order (checked on
	// the log order of each client, then taken out of the timed history)
	gotBy, keptBy := map[int][]int{}, map[int][]int{}
	timed := evs[:0:0]
	for _, e := range evs {
		switch {
		case e.Op == "kept":
			keptBy[e.Client] = append(keptBy[e.Client], e.V)
			continue
		case e.Op == "recv" && e.OK:
			gotBy[e.Client] = append(gotBy[e.Client], e.V)
		}
		timed = append(timed, e)
	}
	evs = timed
	for cl, got := range gotBy {
		if fmt.Sprint(got) != fmt.Sprint(keptBy[cl]) {
			bad = fmt.Sprintf("receiver %d: the values it kept in a table read back differently after the senders' states were closed: received %v, kept %v", cl, got, keptBy[cl])
		}
	}
	if count {
		c.Count("kept_values_read_back", int64(len(gotBy)))
	}
	sort.SliceStable(evs, func(a, b int) bool { return evs[a].Call < evs[b].Call })
	for _, e := range evs {
		if e.Op == "close" {
			closedSeen[e.Ch] = e.Call
		}
	}
	for _, e := range evs {
		byCh[e.Ch] = append(byCh[e.Ch], e)
		switch e.Op {
		case "send":
			sent[e.V]++
		case "close":
		case "recv":
			if e.OK {
				recv[e.V]++
				key := [3]int{e.Client, e.Ch, e.V / 1000000}
				if seq := e.V % 1000000; seq <= lastSeq[key] {
					bad = fmt.Sprintf("receiver %d got payload %d of sender %d after a later one (per-sender order)", e.Client, e.V, e.V/1000000)
				} else {
					lastSeq[key] = seq
				}
			} else if cl, ok := closedSeen[e.Ch]; !ok || e.Ret < cl {
				bad = fmt.Sprintf("receiver %d saw (false,nil) on channel %d before it was closed", e.Client, e.Ch)
			}
		}
	}
	for v, n := range sent {
		if recv[v] != n {
			bad = fmt.Sprintf("payload %d sent %d times, received %d times", v, n, recv[v])
		}
	}
	for v, n := range recv {
		if sent[v] == 0 {
			bad = fmt.Sprintf("payload %d received %d times but never sent", v, n)
		}
	}
	if len(sent) != P*perProducer && bad == "" {
		bad = fmt.Sprintf("%d distinct payloads sent, expected %d", len(sent), P*perProducer)
	}
	// porcupine per channel
	for ch, list := range byCh {
		var ops []porcupine.Operation
		for _, e := range list {
			ops = append(ops, porcupine.Operation{ClientId: e.Client % 1000, Input: e, Call: e.Call, Output: e, Return: e.Ret})
		}
		res := porcupine.CheckOperationsTimeout(queueModel, ops, 10*time.Second)
		if count {
			c.Count("porcupine_"+string(res), 1)
			c.Count("porcupine_operations", int64(len(ops)))
		}
		switch res {
		case porcupine.Illegal:
			bad = fmt.Sprintf("history of channel %d (%d operations) is not linearizable as a FIFO queue with close", ch, len(ops))
		case porcupine.Unknown:
			c.Inconclusive("porcupine timeout")
		}
	}
	if count {
		c.Count("channel_scenarios", 1)
		c.Count("channel_events", int64(len(evs)))
		c.Count(fmt.Sprintf("channel_capacity_%d", capacity), 1)
		h := uint64(14695981039346656037)
		for _, e := range evs {
			h = (h ^ uint64(e.Client*131+e.V)) * 1099511628211
		}
		c.Count("event_order_hash_"+fmt.Sprint(h%8), 1)
	}
	if bad != "" {
		cs.Diff = bad
		cs.Info = fmt.Sprintf("P=%d channels=%d consumers/channel=%d capacity=%d per-producer=%d", P, nch, consPer, capacity, perProducer)
		c.Violation("channel history: "+bad, cs)
		c.End(false, "")
		return
	}
	if count && c.WantSample() {
		head := evs
		if len(head) > 8 {
			head = head[:8]
		}
		c.Sample(map[string]any{"kind": "channels", "producers": P, "channels": nch, "consumers_per_channel": consPer, "capacity": capacity, "events": len(evs), "first_events": head})
	}
	c.End(len(evs) >= 50, fmt.Sprintf("channels/%d/%d", idx, len(evs)))
}

// ---------- (B2) conservation across cancellation ----------

// runCancelConserve: channel operations made through the Go API on a state whose
// context is done either take effect or are refused - a refused receive takes
// nothing out of the channel, a refused send puts nothing in.
func runCancelConserve(c *fw.Ctx, idx int, count bool) {
	cs := Case{Kind: "cancel-conserve", Idx: idx}
	c.Begin(cs)
	r := c.SubRand("cc", idx)
	n := 64 + r.Intn(193)
	in := make(chan lua.LValue, n)
	out := make(chan lua.LValue, n)
	for i := 0; i < n; i++ {
		in <- lua.LNumber(1000 + i)
	}
	L := lua.NewState()
	defer L.Close()
	ctx, cancel := context.WithCancel(context.Background())
	defer cancel()
	L.SetContext(ctx)
	L.SetGlobal("cin", lua.LChannel(in))
	if err := L.DoString(`recv, snd = cin.receive, cin.send`); err != nil {
		c.Violation("cancel-conserve: cannot take the channel methods: "+err.Error(), cs)
		c.End(false, "")
		return
	}
	recv, snd := L.GetGlobal("recv"), L.GetGlobal("snd")
	bad := ""
	seen := map[int]int{}
	last := -1
	delivered, refused := 0, 0
	take := func() {
		top := L.GetTop()
		err := L.CallByParam(lua.P{Fn: recv, NRet: 2, Protect: true}, lua.LChannel(in))
		if err != nil {
			refused++
			if ctx.Err() == nil || !strings.Contains(err.Error(), ctx.Err().Error()) {
				bad = "receive failed with something other than the context's reason: " + errClass(err.Error())
			}
			L.SetTop(top)
			return
		}
		ok, v := L.Get(-2), L.Get(-1)
		L.SetTop(top)
		if num, isNum := v.(lua.LNumber); ok == lua.LTrue && isNum {
			delivered++
			seen[int(num)]++
			if int(num) <= last {
				bad = fmt.Sprintf("value %d delivered after %d (order of one sender)", int(num), last)
			}
			last = int(num)
		} else {
			bad = "receive returned " + gl.Canon(ok, gl.NewIDMap()) + " on an open channel that holds values"
		}
	}
	for i, live := 0, r.Intn(6); i < live; i++ {
		take() // context not done yet
	}
	if refused > 0 {
		bad = "a receive was refused before the context was done"
	}
	cancel()
	for i := 0; i < n; i++ {
		take()
	}
	queued := 0
	for len(in) > 0 {
		v := <-in
		queued++
		seen[int(v.(lua.LNumber))]++
	}
	for i := 0; i < n && bad == ""; i++ {
		if k := seen[1000+i]; k != 1 {
			bad = fmt.Sprintf("value %d was delivered or left queued %d times (delivered %d, refused %d, still queued %d of %d): a refused receive took it out of the channel", 1000+i, k, delivered, refused, queued, n)
		}
	}
	// sends under the done context: accepted ones are in the channel once, refused ones are not
	accepted := map[int]bool{}
	srefused := 0
	for i := 0; i < n; i++ {
		top := L.GetTop()
		err := L.CallByParam(lua.P{Fn: snd, NRet: 0, Protect: true}, lua.LChannel(out), lua.LNumber(5000+i))
		L.SetTop(top)
		if err != nil {
			srefused++
		} else {
			accepted[5000+i] = true
		}
	}
	inOut := map[int]int{}
	for len(out) > 0 {
		v := <-out
		inOut[int(v.(lua.LNumber))]++
	}
	for i := 0; i < n && bad == ""; i++ {
		want := 0
		if accepted[5000+i] {
			want = 1
		}
		if inOut[5000+i] != want {
			bad = fmt.Sprintf("send of %d under a done context reported accepted=%v but the channel holds it %d times", 5000+i, accepted[5000+i], inOut[5000+i])
		}
	}
	if count {
		c.Count("cancel_conserve_scenarios", 1)
		c.Count("cancel_conserve_receives_delivered", int64(delivered))
		c.Count("cancel_conserve_receives_refused", int64(refused))
		c.Count("cancel_conserve_sends_refused", int64(srefused))
		c.Count("cancel_conserve_sends_accepted", int64(len(accepted)))
	}
	if bad != "" {
		cs.Diff = bad
		c.Violation("channel operations under a done context: "+bad, cs)
		c.End(false, "")
		return
	}
	c.End(delivered+refused >= 50, fmt.Sprintf("cancel-conserve/%d", idx))
}

// ---------- (C) select readiness and payload refusal ----------

func runSelectAndPayload(c *fw.Ctx, count bool, withCtx bool) {
	cs := Case{Kind: "select-payload"}
	if withCtx {
		cs.Kind = "select-payload-ctx"
	}
	c.Begin(cs)
	L := lua.NewState()
	defer L.Close()
	if withCtx {
		// the same observations on a state that has an (undone) context attached:
		// the channel operations take their select-with-Done path
		ctx, cancel := context.WithCancel(context.Background())
		defer cancel()
		L.SetContext(ctx)
	}
	var got []string
	L.SetGlobal("emit", L.NewFunction(func(L *lua.LState) int {
		var parts []string
		ids := gl.NewIDMap()
		for i := 1; i <= L.GetTop(); i++ {
			parts = append(parts, gl.Canon(L.Get(i), ids))
		}
		got = append(got, strings.Join(parts, ","))
		return 0
	}))
	L.SetGlobal("newud", L.NewFunction(func(L *lua.LState) int { L.Push(L.NewUserData()); return 1 }))
	src := `
local a, b, cc, a2 = channel.make(1), channel.make(1), channel.make(1), channel.make(1)
-- only b holds a value: the receive case on b is the only ready one
b:send(7)
emit("ready-recv", channel.select({"|<-", a}, {"|<-", b}, {"|<-", cc}))
-- nothing ready: default
emit("default", channel.select({"|<-", a}, {"|<-", b}, {"default"}))
-- a is full: the send case on a is not ready, the send on b is
a:send(1)
emit("ready-send", channel.select({"<-|", a, 5}, {"<-|", b, 6}))
emit("b-has", b:receive())
-- closed channel: receive case ready with ok=false
cc:close()
emit("closed", channel.select({"|<-", cc}))
-- the polling form on a closed, drained channel: the receive case is ready (it reports closure)
emit("closed-poll", channel.select({"|<-", cc}, {"default"}))
emit("closed-poll2", channel.select({"default"}, {"|<-", cc}))
-- the polling form on an open empty channel and on one holding a value
emit("empty-poll", channel.select({"|<-", a2}, {"default"}))
a2:send(9)
emit("full-poll", channel.select({"|<-", a2}, {"default"}))
-- handler functions
emit("handler", channel.select({"|<-", a, function(ok, v) return "got" .. tostring(v) end}))
-- payloads
local ch = channel.make(64) -- roomy: a payload that is wrongly accepted must not block the probe
emit("fn", pcall(ch.send, ch, function() end))
emit("ud", pcall(ch.send, ch, newud()))
emit("thread", pcall(ch.send, ch, coroutine.create(function() end)))
emit("mt-table", pcall(ch.send, ch, setmetatable({}, {})))
local plain = {x = 1}
emit("plain", pcall(ch.send, ch, plain))
local ok, back = ch:receive()
emit("same-table", ok, rawequal(back, plain))
emit("scalars", pcall(ch.send, ch, 1), pcall(ch.send, ch, "s"), pcall(ch.send, ch, true), pcall(ch.send, ch, nil))
-- the same payloads through select's send case
emit("sel-fn", pcall(channel.select, {"<-|", ch, function() end}))
emit("sel-ud", pcall(channel.select, {"<-|", ch, newud()}))
emit("sel-thread", pcall(channel.select, {"<-|", ch, coroutine.create(function() end)}))
emit("sel-mt-table", pcall(channel.select, {"<-|", ch, setmetatable({}, {})}))
`
	o := gl.Protect(func() error { return L.DoString(src) })
	bad := ""
	if o.GoPanic != nil {
		bad = "Go panic: " + o.PanicStr
	} else if o.Err != nil {
		bad = "script failed: " + errClass(o.Err.Error())
	}
	want := map[string]func(string) bool{
		"ready-recv": func(s string) bool { return strings.HasPrefix(s, `"ready-recv",2,7,true`) },
		"default":    func(s string) bool { return strings.HasPrefix(s, `"default",3`) },
		"ready-send": func(s string) bool { return strings.HasPrefix(s, `"ready-send",2`) },
		"b-has":      func(s string) bool { return s == `"b-has",true,6` },
		"closed":     func(s string) bool { return strings.HasPrefix(s, `"closed",1,nil,false`) },
		"closed-poll":  func(s string) bool { return strings.HasPrefix(s, `"closed-poll",1,nil,false`) },
		"closed-poll2": func(s string) bool { return strings.HasPrefix(s, `"closed-poll2",2,nil,false`) },
		"empty-poll":   func(s string) bool { return strings.HasPrefix(s, `"empty-poll",2`) },
		"full-poll":    func(s string) bool { return strings.HasPrefix(s, `"full-poll",1,9,true`) },
		"handler":    func(s string) bool { return strings.HasPrefix(s, `"handler",1`) },
		"fn":         func(s string) bool { return strings.HasPrefix(s, `"fn",false`) },
		"ud":         func(s string) bool { return strings.HasPrefix(s, `"ud",false`) },
		"thread":     func(s string) bool { return strings.HasPrefix(s, `"thread",false`) },
		"mt-table":   func(s string) bool { return strings.HasPrefix(s, `"mt-table",false`) },
		"plain":      func(s string) bool { return strings.HasPrefix(s, `"plain",true`) },
		"same-table": func(s string) bool { return s == `"same-table",true,true` },
		"scalars":    func(s string) bool { return s == `"scalars",true,true,true,true` },
		"sel-fn":       func(s string) bool { return strings.HasPrefix(s, `"sel-fn",false`) },
		"sel-ud":       func(s string) bool { return strings.HasPrefix(s, `"sel-ud",false`) },
		"sel-thread":   func(s string) bool { return strings.HasPrefix(s, `"sel-thread",false`) },
		"sel-mt-table": func(s string) bool { return strings.HasPrefix(s, `"sel-mt-table",false`) },
	}
	seen := map[string]bool{}
	for _, e := range got {
		for k, f := range want {
			if strings.HasPrefix(e, `"`+k+`"`) {
				seen[k] = true
				if !f(e) {
					bad = "unexpected observation: " + e
				}
			}
		}
	}
	if bad == "" && len(seen) != len(want) {
		bad = fmt.Sprintf("only %d of %d observations were made: %v", len(seen), len(want), got)
	}
	if count {
		c.Count("select_payload_cases", int64(len(want)))
	}
	if bad != "" {
		cs.Diff = bad
		c.Violation("select readiness / payload refusal: "+bad, cs)
		c.End(false, "")
		return
	}
	c.End(true, cs.Kind)
}

func run(c *fw.Ctx) {
	n := c.Pick(28, 700)
	for i := 0; i < n; i++ {
		if c.Mine(i) {
			runCompute(c, i, true)
		}
	}
	m := c.Pick(40, 2000)
	for i := 0; i < m; i++ {
		if c.Mine(i) {
			runChannels(c, i, true)
		}
	}
	for i := 0; i < c.Pick(12, 200); i++ {
		if c.Mine(i) {
			runTaint(c, i, true)
		}
	}
	for i := 0; i < c.Pick(48, 2000); i++ {
		if c.Mine(i) {
			runCancelConserve(c, i, true)
		}
	}
	runSelectAndPayload(c, true, false)
	runSelectAndPayload(c, true, true)
}

func replay(c *fw.Ctx, raw json.RawMessage) {
	var cs Case
	if err := json.Unmarshal(raw, &cs); err != nil {
		fmt.Println("bad case:", err)
		return
	}
	switch cs.Kind {
	case "compute":
		runCompute(c, cs.Idx, false)
	case "channels":
		runChannels(c, cs.Idx, false)
	case "taint":
		runTaint(c, cs.Idx, false)
	case "cancel-conserve":
		runCancelConserve(c, cs.Idx, false)
	default:
		runSelectAndPayload(c, false, cs.Kind == "select-payload-ctx")
	}
}
