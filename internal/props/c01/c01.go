// Package c01: core language runs as Lua 5.1 defines (reference-interpreter
// monitor + metamorphic twins over generated programs).
package c01

import (
	"encoding/json"
	"fmt"
	"math/rand"
	"strings"

	"verif/internal/fw"
	"verif/internal/last"
	"verif/internal/lgen"
	"verif/internal/lrun"
)

func init() {
	fw.Register(&fw.Prop{
		ID:    "C01",
		Level: "exploration",
		Rule: "programs: seeded generator over the core language (expressions of depth <=5 over every operator with operands from local/upvalue/global/field storage, " +
			"coercions, table constructors, single/multiple assignment incl. swaps and overlapping targets, if/while/repeat/numeric-for/generic-for/break/goto, failing operations); " +
			"each program is run on the real interpreter and on the reference interpreter (trace = emit tuples + chunk results + failure position) and on 3 metamorphic twins " +
			"(wild layout, padded registers, literals lifted into locals); non-trivial = model executed >=10 statements and the trace has >=3 events; distinct by source hash",
		Assumptions: []string{
			"the reference interpreter internal/lref implements the Lua 5.1 manual semantics of the core language (it is the trusted base)",
			"run-time error message texts are not compared, only class and line",
			"number->string conversions are only compared on values where %.14g and shortest round-trip formatting agree; other cases are counted inconclusive",
		},
		CrashIsViolation: true,
		HangSeconds:      120,
		Run:              run,
		Replay:           replay,
	})
}

// Case identifies one generated program.
type Case struct {
	Index int    `json:"index"`
	Src   string `json:"src,omitempty"`
	Twin  string `json:"twin,omitempty"`
	Diff  string `json:"diff,omitempty"`
}

func features(r *rand.Rand) lgen.Features {
	f := lgen.Features{
		Calls:     r.Intn(2) == 0,
		Varargs:   r.Intn(3) == 0,
		Goto:      r.Intn(3) == 0,
		Errors:    r.Intn(3) == 0,
		Closures:  r.Intn(4) == 0,
		BigConsts: r.Intn(12) == 0,
		MaxStmts:  8 + r.Intn(50),
		MaxDepth:  2 + r.Intn(4),
		ExprDepth: 2 + r.Intn(4),
	}
	return f
}

// Build regenerates program idx deterministically.
func Build(c *fw.Ctx, idx int) (*last.Chunk, *lgen.Gen) {
	r := c.SubRand("prog", idx)
	g := lgen.New(r, features(r))
	return g.Program(), g
}

func runCase(c *fw.Ctx, idx int, count bool) {
	chunk, g := Build(c, idx)
	src := last.Render(chunk, nil)
	cs := Case{Index: idx, Src: src}
	c.Begin(cs)
	cfg := &lrun.Config{}
	m := lrun.RunModel(chunk, cfg)
	if m.Abort != "" {
		c.Inconclusive("model:" + m.Abort)
		if lrun.ResourceAbort(m.Abort) {
			// the model cannot vouch for termination: do not run the implementation on it
			c.End(false, "")
			return
		}
		// otherwise still run the canaries and twins below: they need no model
	}
	impl := lrun.RunImpl(src, cfg)
	if m.Abort == "" {
		if d := lrun.Compare(m, impl); d != nil {
			cs.Diff = d.String()
			classify(c, m, impl, d, cs)
			c.End(false, "")
			return
		}
	} else if impl.GoPanic != "" || impl.RTFault != "" || impl.LoadErr != "" {
		cs.Diff = impl.GoPanic + impl.RTFault + impl.LoadErr
		c.Violation("canary: "+cs.Diff, cs)
		c.End(false, "")
		return
	}
	// metamorphic twins (model-free)
	tr := c.SubRand("twin", idx)
	for _, tw := range []string{"wild", "pad", "lift"} {
		chunk2, _ := Build(c, idx)
		var src2 string
		switch tw {
		case "wild":
			src2 = last.Render(chunk2, &last.Layout{Wild: true, R: tr, PNewline: 5 + tr.Intn(40), AltStrings: true, Semis: true, ExtraParens: true,
				EOL: []string{"\n", "\r\n", "\n", "\r"}[tr.Intn(4)]})
		case "pad":
			n := []int{1, 2, 3, 17, 60}[tr.Intn(5)]
			names := make([]string, n)
			var vals []last.Expr
			for i := range names {
				names[i] = fmt.Sprintf("pad%d", i)
				vals = append(vals, last.Num(float64(i)))
			}
			chunk2.Body.Stmts = append([]last.Stmt{&last.SLocal{Names: names, Exprs: vals}}, chunk2.Body.Stmts...)
			src2 = last.Render(chunk2, nil)
		case "lift":
			n := lgen.LiftLiterals(chunk2, 40, tr)
			if n == 0 {
				continue
			}
			src2 = last.Render(chunk2, nil)
		}
		impl2 := lrun.RunImpl(src2, cfg)
		if count {
			c.Count("twin_"+tw, 1)
		}
		if d := lrun.CompareImpl(impl, impl2, true); d != nil || impl2.GoPanic != "" || impl2.LoadErr != "" {
			cs2 := cs
			cs2.Twin = src2
			msg := impl2.GoPanic + impl2.LoadErr
			if d != nil {
				msg = d.String()
			}
			cs2.Diff = tw + " twin: " + msg
			c.Violation("metamorphic twin ("+tw+") behaves differently from the original program: "+msg, cs2)
			c.End(false, "")
			return
		}
	}
	if count {
		c.Count("model_steps", int64(m.In.Steps))
		c.Count("trace_events", int64(len(impl.Trace)))
		for k, v := range m.In.StmtKinds {
			c.Count("stmt_"+k, int64(v))
		}
		for k, v := range m.In.ExprKinds {
			c.Count("expr_"+k, int64(v))
		}
		for k := range g.Cover {
			c.Count("gen_"+k, 1)
		}
		if impl.Failed {
			c.Count("programs_ending_in_error", 1)
		}
		if c.WantSample() && len(src) < 1500 && len(impl.Trace) >= 3 {
			c.Sample(map[string]any{"src": src, "trace": impl.Trace})
		}
	}
	c.End(m.Abort == "" && m.In.Steps >= 10 && len(impl.Trace) >= 3, src)
}

// classify files a model/implementation disagreement as violation or known finding.
func classify(c *fw.Ctx, m *lrun.ModelRun, impl *lrun.ImplRun, d *lrun.Diff, cs Case) {
	what := "implementation diverges from the reference interpreter: " + d.String()
	// finding: numeric for with string bounds (first divergence must be the failure of the for statement itself)
	if m.In.Tags["numfor-string-bound"] > 0 && impl.Failed && strings.Contains(impl.ErrText, "for statement") && d.Kind != "gopanic" && d.Kind != "rtfault" {
		c.ViolationOrKnown("C01-numfor-string-bound", true, what, cs)
		return
	}
	c.Violation(what, cs)
}

func run(c *fw.Ctx) {
	total := c.Pick(4000, 400000)
	for i := 0; i < total; i++ {
		if !c.Mine(i) {
			continue
		}
		runCase(c, i, true)
	}
}

func replay(c *fw.Ctx, raw json.RawMessage) {
	var cs Case
	if err := json.Unmarshal(raw, &cs); err != nil {
		fmt.Println("bad case:", err)
		return
	}
	chunk, _ := Build(c, cs.Index)
	if src := last.Render(chunk, nil); cs.Src != "" && src != cs.Src {
		fmt.Println("note: the generator no longer reproduces the recorded source for this index; the recorded source was:")
		fmt.Println(cs.Src)
	}
	runCase(c, cs.Index, false)
}
