// Package c11: cancelling the context stops any running script promptly.
// Fault enumeration over the cancellation point: a counting context cancels a
// real cancelCtx inside its k-th Done() call (= at instruction dispatch k).
package c11

import (
	"context"
	"encoding/json"
	"fmt"
	"runtime"
	"strings"
	"sync/atomic"
	"time"

	lua "github.com/yuin/gopher-lua"

	"verif/internal/fw"
	"verif/internal/gl"
)

func init() {
	fw.Register(&fw.Prop{
		ID:    "C11",
		Level: "fault_enumeration",
		Rule: "programs: non-terminating and terminating scripts (tight while/for/goto loops, deep and tail recursion, pcall/xpcall retry loops that swallow errors, error handlers that loop, metamethod recursion, coroutine ping-pong and generators, sort/gsub callbacks) instantiated with seeded parameters; " +
			"a counting context wraps a real cancelCtx and cancels it inside its k-th Done() call, k enumerated over EVERY poll 1..K of the main thread (K = polls of the reference run, capped); inside coroutines (which poll a derived context) the cancel is placed by a host function cancel() at generated points; " +
			"attachment modes: context on the main state; on a NewThread state run by Resume; on a state without libraries; replacing an earlier context that has ended (with and without RemoveContext); and, for programs that create their coroutines through it, with a prelude coroutine that predates the context (made under no context or under an earlier live one) handing out the coroutines; " +
			"a terminating channel program (send/receive/close/select with handler functions, one ready case each) checks that attaching changes nothing; " +
			"oracle per (program, k): DoString returns an error whose text carries the context's reason; no host call (emit) completes after the cancellation; polls after the cancel <= 4*(protected-call nesting + 2); the trace before the cancel is a prefix of the uncancelled/reference trace; " +
			"blocking channel operations (receive, send, select) with no counterpart are cancelled by the harness after a handshake: the script goroutine must return with the reason; a goroutine still parked in a channel operation nobody else can complete is a violation (deadlock), any other watchdog firing is inconclusive; " +
			"every program also with the context attached to a NewThread state only and run by Resume (every 4th poll); after-cancel probes on a share of the runs: protected calls of one-instruction Lua functions and Resume of a new thread must fail with the reason, a SETTABLE of a freshly called function must not take effect; blocking operations also in tail position; " +
			"pools: 8 states in goroutines take 3000 values from one 1-slot channel, the feeder goes quiet, the pool drains, the common context is cancelled: every state must return the reason (a state parked in receive on the empty channel is a violation); " +
			"non-trivial = the cancel struck while the script was running (k within the run); distinct by (program, k)",
		Assumptions: []string{
			"mainLoopWithContext polls Done() once per dispatched instruction (read in vm.go); context.WithCancel on our wrapper registers children on the wrapped cancelCtx (Done() returns its channel), so cancellation reaches coroutines synchronously",
			"deadline contexts are exercised with an already-expired deadline only (no wall-clock in the oracle)",
		},
		CrashIsViolation: true,
		Run:              run,
		Replay:           replay,
		HangSeconds:      180,
	})
}

type Case struct {
	Prog int    `json:"prog"`
	P1   int    `json:"p1"`
	K    int    `json:"k"`
	Kind string `json:"kind"`
	Mode string `json:"mode,omitempty"` // "" = context on the main state, run by PCall; "thread" = context on a NewThread state only, run by Resume
	Src  string `json:"src,omitempty"`
	Diff string `json:"diff,omitempty"`
}

// cancelAt cancels the wrapped context inside its k-th Done() call.
type cancelAt struct {
	context.Context
	cancel context.CancelFunc
	n      int64
	k      int64
	at     int64 // poll count at which the cancel happened (0 = not yet)
}

func newCancelAt(k int, deadline bool) *cancelAt {
	inner, cancel := context.WithCancel(context.Background())
	return &cancelAt{Context: inner, cancel: cancel, k: int64(k)}
}

func (c *cancelAt) Done() <-chan struct{} {
	n := atomic.AddInt64(&c.n, 1)
	if n == c.k {
		atomic.StoreInt64(&c.at, n)
		c.cancel()
	}
	return c.Context.Done()
}

func (c *cancelAt) cancelNow() bool {
	if atomic.CompareAndSwapInt64(&c.at, 0, atomic.LoadInt64(&c.n)+1) {
		c.cancel()
		return true
	}
	return false
}

type program struct {
	name       string
	depth      int // protected-call nesting the script can be in
	src        func(p int) string
	terminates bool
}

var programs = []program{
	{"while-true", 0, func(p int) string { return "local i = 0\nwhile true do i = i + 1; emit(i) end" }, false},
	{"numeric-for", 0, func(p int) string {
		return fmt.Sprintf("for i = 1, 1e9 do if i %% %d == 0 then emit(i) end end", 1+p%5)
	}, false},
	{"empty-for", 0, func(p int) string {
		return []string{"for i = 1, 1e300 do end", "for i = 0, -1e300, -1 do end", "for i = 2, 1, 0 do end", "for i = 1, 1e300 do end emit('never')", "local n = 0\nfor i = 1, 3 do n = n + 1 end\nfor j = 1, 1e308, 1e-3 do end"}[p%5]
	}, false},
	{"goto-loop", 0, func(p int) string { return "local i = 0\n::top:: i = i + 1\nif i % 3 == 0 then emit(i) end\ngoto top" }, false},
	{"repeat-nested", 0, func(p int) string {
		return "local n = 0\nrepeat\n  for j = 1, 3 do n = n + j end\n  emit(n)\nuntil false"
	}, false},
	{"deep-recursion", 0, func(p int) string {
		return fmt.Sprintf("local function rec(n) if n == 0 then emit('bottom') return 0 end return 1 + rec(n - 1) end\nwhile true do emit(rec(%d)) end", 5+p%40)
	}, false},
	{"tail-recursion", 0, func(p int) string {
		return "local function loop(n) if n % 7 == 0 then emit(n) end return loop(n + 1) end\nloop(1)"
	}, false},
	{"pcall-retry", 1, func(p int) string {
		return "while true do\n  local ok, e = pcall(function() local i = 0 while true do i = i + 1 emit(i) end end)\n  emit('caught', ok)\nend"
	}, false},
	{"xpcall-retry-nested", 3, func(p int) string {
		return "local function h(m) return m end\nwhile true do\n  xpcall(function()\n    pcall(function()\n      xpcall(function() local i = 0 while true do i = i + 1 emit(i) end end, h)\n      emit('inner-swallowed')\n    end)\n    emit('middle-swallowed')\n  end, h)\n  emit('outer-swallowed')\nend"
	}, false},
	{"handler-loops", 1, func(p int) string {
		return "while true do\n  xpcall(function() error('x') end, function(m) local i = 0 while true do i = i + 1 emit('h', i) end end)\n  emit('after')\nend"
	}, false},
	{"metamethod-recursion", 0, func(p int) string {
		return "local mt = {}\nmt.__index = function(t, k) emit(k) return t[k + 1] end\nlocal o = setmetatable({}, mt)\nlocal ok = pcall(function() return o[1] end)\nwhile true do pcall(function() return o[1] end) end"
	}, false},
	{"coroutine-pingpong", 0, func(p int) string {
		return "local a = coroutine.wrap(function() local i = 0 while true do i = i + 1 emit('a', i) coroutine.yield(i) end end)\nwhile true do emit('main', a()) end"
	}, false},
	{"generator-for", 0, func(p int) string {
		return "local function gen() return coroutine.wrap(function() local i = 0 while true do i = i + 1 coroutine.yield(i) end end) end\nfor v in gen() do if v % 2 == 0 then emit(v) end end"
	}, false},
	{"sort-callback", 0, func(p int) string {
		return "while true do\n  local t = {}\n  for i = 1, 30 do t[i] = (i * 7) % 31 end\n  table.sort(t, function(a, b) emit(a) return a < b end)\nend"
	}, false},
	{"gsub-callback", 0, func(p int) string {
		return "while true do (('x'):rep(20)):gsub('x', function(m) emit(m) return 'y' end) end"
	}, false},
	{"terminating-mix", 1, func(p int) string {
		return fmt.Sprintf("local t = {}\nfor i = 1, %d do t[#t + 1] = i * 2 emit(i) end\nlocal ok, e = pcall(function() error('E') end)\nemit(ok, #t)\nlocal co = coroutine.wrap(function(a) coroutine.yield(a + 1) return 9 end)\nemit(co(1), co())\nreturn #t", 5+p%30)
	}, true},
	{"terminating-coroutine-family", 1, func(p int) string {
		// coroutines created by coroutines, used after their creator returned,
		// failed or while it is suspended: an undone context changes nothing
		return fmt.Sprintf(`local made = {}
local function body(a) emit('inner', a) local b = coroutine.yield(a + 1) emit('inner-resumed', b) return b * 2 end
local o1 = coroutine.create(function() made[1] = coroutine.create(body) made[2] = coroutine.wrap(body) return 1 end)
local o2 = coroutine.create(function() made[3] = coroutine.create(body) error('Eouter') end)
local o3 = coroutine.create(function() made[4] = coroutine.create(function(a) made[5] = coroutine.create(body) return a end) coroutine.yield(2) return 3 end)
emit(coroutine.resume(o1)) emit(coroutine.resume(o2)) emit(coroutine.resume(o3))
emit(coroutine.status(o1), coroutine.status(o2), coroutine.status(o3))
emit(coroutine.resume(made[1], %d)) emit(coroutine.resume(made[1], 5)) emit(coroutine.status(made[1]))
emit(pcall(made[2], 20)) emit(pcall(made[2], 6))
emit(coroutine.resume(made[3], 30)) emit(coroutine.resume(made[3], 7))
emit(coroutine.resume(made[4], 40)) emit(coroutine.resume(made[5], 50)) emit(coroutine.resume(made[5], 8))
emit(coroutine.resume(o3)) emit(coroutine.status(o3))
return 1`, 10+p%5)
	}, true},
	{"terminating-channels", 0, func(p int) string {
		// buffered channels used by one state: send, receive, close and select with and
		// without handler functions, cases of both directions in every order. With a
		// context attached these operations take their select-with-Done paths.
		return fmt.Sprintf(`local a, b, full = channel.make(4), channel.make(4), channel.make(1)
full:send(0) -- a send on it is never ready: every select below has exactly one ready case
a:send(%d) a:send("two") b:send(3)
emit("recv", a:receive()) emit("recv", b:receive())
local function h(tag) return function(...) emit(tag, select('#', ...), ...) return tag end end
emit("sel1", channel.select({"|<-", a, h("ra")}, {"|<-", b, h("rb")}))
emit("sel2", channel.select({"<-|", b, 7, h("sb")}, {"|<-", a, h("ra")}))
emit("sel3", channel.select({"|<-", b, h("rb")}, {"<-|", full, "x", h("sf")}))
emit("sel3b", channel.select({"<-|", full, "y", h("sf")}, {"|<-", full, h("rf")}))
full:send(0)
emit("sel4", channel.select({"<-|", full, 8, h("sf")}, {"<-|", a, 9, h("sa2")}, {"|<-", b, h("rb")}))
emit("sel5", channel.select({"default", h("def")}, {"|<-", channel.make(1), h("never")}))
emit("sel6", channel.select({"|<-", b}, {"<-|", a, 1}))
for i = 1, 4 do local idx, v, ok = channel.select({"|<-", a, h("ra" .. i)}, {"|<-", b, h("rb" .. i)}, {"default"}) emit("drain", idx, v, ok) end
a:close() emit("closed", a:receive()) emit("closed-select", channel.select({"|<-", a, h("rc")}, {"default"}))
return %d`, 1+p%9, p%7)
	}, true},
	{"spawned-coroutine", 0, func(p int) string {
		return fmt.Sprintf("local mk = spawn or function(f) return coroutine.wrap(f) end\nlocal co = mk(function() local i = 0 while true do i = i + 1 emit('s', i) if i %% %d == 0 then coroutine.yield(i) end end end)\nwhile true do emit('main', co()) end", 2+p%4)
	}, false},
	{"terminating-spawned", 0, func(p int) string {
		return fmt.Sprintf("local mk = spawn or function(f) return coroutine.wrap(f) end\nlocal co = mk(function(a) local b = coroutine.yield(a + 1) emit('in', b) local inner = mk(function(x) return x * 2 end) return inner(b) end)\nemit(co(%d)) emit(co(5))\nlocal g = mk(function() for i = 1, 4 do coroutine.yield(i) end end)\nfor v in g do emit('g', v) end\nreturn 2", p%9)
	}, true},
	{"cancel-inside-spawned-coroutine", 1, func(p int) string {
		return fmt.Sprintf("local mk = spawn or function(f) return coroutine.wrap(f) end\nlocal co = mk(function()\n  local i = 0\n  while true do\n    i = i + 1\n    emit('co', i)\n    if i == %d then cancel() end\n    if i %% 3 == 0 then coroutine.yield(i) end\n  end\nend)\nwhile true do emit('main', co()) end", 1+p%9)
	}, false},
	{"cancel-inside-coroutine", 1, func(p int) string {
		return fmt.Sprintf("local co = coroutine.wrap(function()\n  local i = 0\n  while true do\n    i = i + 1\n    emit('co', i)\n    if i == %d then cancel() end\n    if i %% 3 == 0 then coroutine.yield(i) end\n  end\nend)\nwhile true do emit('main', co()) end", 1+p%9)
	}, false},
	{"host-cancel-then-stores", 0, func(p int) string {
		return fmt.Sprintf("T = {}\nlocal up = 0\nlocal function peek() return up end\nlocal i = 0\nwhile true do\n  i = i + 1\n  emit('i', i)\n  if i == %d then cancel(); AFTER = i; T.hit = i; T[1] = 'x' .. i; up = i end\nend", 1+p%9)
	}, false},
	{"host-cancel-then-stores-in-pcall", 1, func(p int) string {
		return fmt.Sprintf("T = {}\nlocal i = 0\nwhile true do\n  i = i + 1\n  emit('i', i)\n  pcall(function() if i == %d then cancel(); T.hit = i; AFTER = i end end)\nend", 1+p%9)
	}, false},
	{"host-cancel-then-stores-in-coroutine", 1, func(p int) string {
		return fmt.Sprintf("T = {}\nlocal co = coroutine.wrap(function()\n  local i = 0\n  while true do\n    i = i + 1\n    emit('co', i)\n    if i == %d then cancel(); T[1] = i; AFTER = i end\n    if i %% 3 == 0 then coroutine.yield(i) end\n  end\nend)\nwhile true do emit('main', co()) end", 1+p%9)
	}, false},
	{"host-cancel-then-stores-in-metamethod", 1, func(p int) string {
		return fmt.Sprintf("T = {}\nlocal o = setmetatable({}, {__index = function(t, k) if k == %d then cancel(); AFTER = k; T.hit = k end return k end})\nlocal i = 0\nwhile true do i = i + 1 emit('v', o[i]) end", 1+p%9)
	}, false},
	{"cancel-inside-coroutine-pcall", 2, func(p int) string {
		return fmt.Sprintf("local co = coroutine.create(function()\n  local i = 0\n  while true do\n    pcall(function() while true do i = i + 1 emit('co', i) if i == %d then cancel() end end end)\n    emit('swallowed')\n  end\nend)\nwhile true do emit('main', coroutine.resume(co)) end", 2+p%7)
	}, false},
}

const spawnPrelude = `spawn = coroutine.wrap(function(f) while true do f = coroutine.yield(coroutine.wrap(f)) end end)`

// spawnOK: programs that create their coroutines through the global spawn when it exists
var spawnOK = map[string]bool{"spawned-coroutine": true, "terminating-spawned": true, "cancel-inside-spawned-coroutine": true}

// bareOK: programs that use nothing but the language and emit, so that they run
// on a state created with SkipOpenLibs (whose first call is then the script)
var bareOK = map[string]bool{"while-true": true, "numeric-for": true, "empty-for": true, "goto-loop": true, "repeat-nested": true, "deep-recursion": true, "tail-recursion": true}

type runResult struct {
	trace       []string
	errText     string
	failed      bool
	goPanic     string
	polls       int
	cancelledAt int
	emitAfter   int
	ret         string
	probeBad    string // first after-cancel probe that completed Lua code
	probes      int
	afterEffect string // a store placed directly behind the script's own cancel() call took effect
	hostCancel  bool   // the script's cancel() call is what ended the context
}

// tiny functions whose first (often only) instruction is observable: a
// fresh entry into the interpreter after the context is done must not
// complete any of them
var probeSrcs = []string{
	"return function(x) return x end",
	"return function() end",
	"return function(...) return ... end",
	"return function(x) return x, x end",
	"return function(t) t.hit = true end",
}

func runOnce(src string, k int, useCtx bool, opt ...string) *runResult {
	res := &runResult{}
	mode, probe := "", false
	for _, o := range opt {
		switch o {
		case "thread", "bare", "reattach", "spawn-none", "spawn-old":
			mode = o
		case "probe":
			probe = true
		}
	}
	L := lua.NewState(lua.Options{SkipOpenLibs: mode == "bare"})
	defer L.Close()
	var probes []lua.LValue
	if probe && mode != "bare" {
		for _, ps := range probeSrcs {
			probes = append(probes, gl.MustLoad(L, ps)) // before the context is attached: no polls consumed
		}
	}
	var ctx *cancelAt
	run := L // the state that runs the script
	if strings.HasPrefix(mode, "spawn-") {
		// a coroutine that predates the context (made with no context, or under an
		// earlier one that is still live) hands out coroutines it creates on request:
		// those are created after the context was attached and obey it
		if mode == "spawn-old" && useCtx {
			L.SetContext(context.Background())
		}
		if err := L.DoString(spawnPrelude); err != nil {
			res.failed, res.errText = true, "prelude: "+err.Error()
			return res
		}
	}
	if useCtx {
		ctx = newCancelAt(k, false)
		if mode == "thread" {
			// the context is attached to a thread state only; the parent has none
			run, _ = L.NewThread()
			run.SetContext(ctx)
		} else {
			if mode == "reattach" {
				// the state served an earlier piece of work under a context that has
				// ended since; the new context replaces it (with or without a removal)
				old, cancelOld := context.WithCancel(context.Background())
				L.SetContext(old)
				cancelOld()
				if k%2 == 1 {
					L.RemoveContext()
				}
			}
			L.SetContext(ctx)
		}
	} else if mode == "thread" {
		run, _ = L.NewThread()
	}
	L.SetGlobal("emit", L.NewFunction(func(L *lua.LState) int {
		if ctx != nil && ctx.Context.Err() != nil {
			res.emitAfter++
		}
		ids := gl.NewIDMap()
		var parts []string
		for i := 1; i <= L.GetTop(); i++ {
			parts = append(parts, gl.Canon(L.Get(i), ids))
		}
		if len(res.trace) < 200000 {
			res.trace = append(res.trace, strings.Join(parts, ","))
		}
		return 0
	}))
	hostCancelled := false
	L.SetGlobal("cancel", L.NewFunction(func(L *lua.LState) int {
		if ctx != nil {
			if ctx.cancelNow() {
				hostCancelled = true
			}
		}
		return 0
	}))
	var thVals []lua.LValue
	o := gl.Protect(func() error {
		fn, err := L.LoadString(src)
		if err != nil {
			return err
		}
		if mode == "thread" {
			st, rerr, vals := L.Resume(run, fn)
			if st == lua.ResumeError {
				if rerr == nil {
					rerr = fmt.Errorf("ResumeError without an error value")
				}
				return rerr
			}
			thVals = vals
			return nil
		}
		L.Push(fn)
		return L.PCall(0, 1, nil)
	})
	if o.GoPanic != nil {
		res.goPanic = o.PanicStr
	}
	if o.Err != nil {
		res.failed = true
		res.errText = o.Err.Error()
	} else if o.GoPanic == nil {
		if mode == "thread" {
			res.ret = "nil"
			if len(thVals) > 0 {
				res.ret = gl.Canon(thVals[0], gl.NewIDMap())
			}
		} else {
			res.ret = gl.Canon(L.Get(-1), gl.NewIDMap())
		}
	}
	if ctx != nil && ctx.Context.Err() != nil && o.GoPanic == nil {
		// programs that end the context themselves (host function cancel()) put plain stores - no call, no
		// branch - right behind that call: the call instruction was under way when the context became done,
		// the instructions behind it are "further instructions" and must not complete
		res.hostCancel = hostCancelled
		if v := L.GetGlobal("AFTER"); v != lua.LNil {
			res.afterEffect = "global AFTER = " + v.String()
		} else if tb, ok := L.GetGlobal("T").(*lua.LTable); ok {
			if v := tb.RawGetString("hit"); v != lua.LNil {
				res.afterEffect = "T.hit = " + v.String()
			} else if v := tb.RawGetInt(1); v != lua.LNil {
				res.afterEffect = "T[1] = " + v.String()
			}
		}
	}
	if probe && ctx != nil && ctx.Context.Err() != nil && o.GoPanic == nil && mode == "" {
		// the context is done: no fresh entry into Lua code may complete
		for i, pf := range probes {
			arg := lua.LValue(lua.LNumber(7))
			var tb *lua.LTable
			if i == len(probes)-1 {
				tb = L.NewTable()
				arg = tb
			}
			po := gl.Protect(func() error { return L.CallByParam(lua.P{Fn: pf, NRet: lua.MultRet, Protect: true}, arg) })
			res.probes++
			switch {
			case po.GoPanic != nil:
				res.probeBad = "Go panic in an after-cancel probe: " + po.PanicStr
			case po.Err == nil:
				res.probeBad = fmt.Sprintf("after the context was done, a protected call of `%s` completed and returned normally", probeSrcs[i])
			case !strings.Contains(po.Err.Error(), "context canceled"):
				res.probeBad = fmt.Sprintf("after the context was done, a protected call of `%s` failed with %q, not with the context's reason", probeSrcs[i], fw.Short(po.Err.Error(), 100))
			case tb != nil && tb.RawGetString("hit") != lua.LNil:
				res.probeBad = "after the context was done, a SETTABLE instruction of a freshly called function took effect"
			}
			if res.probeBad != "" {
				break
			}
			L.SetTop(0)
		}
		if res.probeBad == "" {
			// a coroutine created from the state after the context was attached (and done)
			th, _ := L.NewThread()
			st, _, _ := L.Resume(th, probes[0].(*lua.LFunction), lua.LNumber(7))
			res.probes++
			if st != lua.ResumeError {
				res.probeBad = "after the context was done, Resume of a new thread ran `function(x) return x end` to completion"
			}
		}
	}
	if ctx != nil {
		res.polls = int(atomic.LoadInt64(&ctx.n))
		res.cancelledAt = int(atomic.LoadInt64(&ctx.at))
	}
	return res
}

func checkCancelled(ref, got *runResult, depth int) string {
	if got.goPanic != "" {
		return "Go panic escaped: " + got.goPanic
	}
	if got.cancelledAt == 0 {
		return "" // the script ended before poll k
	}
	if !got.failed {
		return "the context was cancelled while the script ran but DoString/PCall returned without an error"
	}
	if !strings.Contains(got.errText, "context canceled") {
		return "the returned error does not carry the context's reason: " + fw.Short(got.errText, 160)
	}
	if gl.IsGoRuntimeErrorText(got.errText) {
		return "Go run-time fault: " + fw.Short(got.errText, 160)
	}
	if got.emitAfter > 0 {
		return fmt.Sprintf("%d host calls completed after the context was done", got.emitAfter)
	}
	if got.probeBad != "" {
		return got.probeBad
	}
	if got.afterEffect != "" {
		return "a store behind the point where the context became done took effect: " + got.afterEffect
	}
	bound := 4 * (depth + 2)
	if after := got.polls - got.cancelledAt; after > bound {
		return fmt.Sprintf("%d further dispatch attempts after the cancel (bound %d for protected-call nesting %d)", after, bound, depth)
	}
	for i, e := range got.trace {
		if i >= len(ref.trace) {
			break // the reference run was cut earlier
		}
		if ref.trace[i] != e {
			return fmt.Sprintf("behaviour before the cancel differs from the uncancelled run at event %d: %s vs %s", i, fw.Short(e, 60), fw.Short(ref.trace[i], 60))
		}
	}
	return ""
}

func runProgram(c *fw.Ctx, pi int, p1 int, onlyK int, count bool, mode string) {
	p := programs[pi]
	src := p.src(p1)
	base := Case{Prog: pi, P1: p1, Kind: "poll", Src: src, Mode: mode}
	K := c.Pick(1200, 6000)
	kStep, kOff := 1, 0
	if mode == "bare" {
		// a state without libraries: the script is the very first call the state makes
		kStep, kOff = 3, p1%3
	}
	if mode == "thread" {
		// the same enumeration with the context on a thread state: every 4th poll, offset by the variant
		kStep, kOff = 4, p1%4
	}
	if mode == "reattach" {
		kStep, kOff = 5, p1%5
	}
	c.Begin(base)
	var ref *runResult
	if p.terminates {
		ref = runOnce(src, 0, true, mode)
		plain := runOnce(src, 0, false, mode)
		if strings.Join(plain.trace, ";") != strings.Join(ref.trace, ";") || plain.ret != ref.ret || plain.failed != ref.failed {
			c.Violation("attaching an undone context changed the script's behaviour", base)
		}
		if ref.polls < K {
			K = ref.polls
		}
	} else {
		ref = runOnce(src, K+400, true, mode) // reference: cut well after the enumerated range
	}
	c.End(true, fmt.Sprintf("%s/%d/ref/%s", p.name, p1, mode))
	if count && mode == "thread" {
		c.Count("programs_with_context_on_thread_only", 1)
	}
	if count && strings.HasPrefix(mode, "spawn-") {
		c.Count("programs_whose_coroutines_are_created_by_a_coroutine_that_predates_the_context", 1)
	}
	if count && mode == "reattach" {
		c.Count("programs_with_a_context_replacing_an_ended_one", 1)
	}
	if count {
		c.Count("programs", 1)
		c.Count("polls_enumerated_"+p.name, int64(K))
	}
	for k := 1; k <= K; k++ {
		if onlyK > 0 && k != onlyK {
			continue
		}
		if onlyK == 0 && k%kStep != kOff {
			continue
		}
		cs := base
		cs.K = k
		c.Begin(cs)
		probe := ""
		if onlyK > 0 || k%8 == p1%8 || k == K {
			probe = "probe"
		}
		got := runOnce(src, k, true, mode, probe)
		if count && got.probes > 0 {
			c.Count("after_cancel_probes", int64(got.probes))
		}
		v := checkCancelled(ref, got, p.depth)
		if count {
			c.Count("cancel_runs", 1)
			if got.hostCancel {
				c.Count("runs_ended_by_the_scripts_own_cancel_call_with_stores_behind_it_audited", 1)
			}
			if got.cancelledAt > 0 {
				c.Count("cancel_struck_while_running", 1)
				c.Count(fmt.Sprintf("polls_after_cancel_%d", minInt(got.polls-got.cancelledAt, 9)), 1)
			}
		}
		if v != "" {
			cs.Diff = v
			c.Violation(fmt.Sprintf("%s cancelled at poll %d: %s", p.name, k, v), cs)
			c.End(false, "")
			continue
		}
		if count && c.WantSample() && k == K/2 {
			c.Sample(map[string]any{"program": p.name, "src": src, "cancel_at_poll": k, "polls_after_cancel": got.polls - got.cancelledAt, "error": fw.Short(got.errText, 80), "events_before_cancel": len(got.trace)})
		}
		c.End(got.cancelledAt > 0, fmt.Sprintf("%s/%d/%d/%s", p.name, p1, k, mode))
	}
}

func minInt(a, b int) int {
	if a < b {
		return a
	}
	return b
}

// ---------- blocking channel operations ----------

var blocking = []struct{ name, src string }{
	{"receive", "ready() local ok, v = ch:receive() emit('returned', ok, v) while true do emit('spin') end"},
	{"send-unbuffered", "ready() ch:send(1) emit('returned') while true do emit('spin') end"},
	{"send-full-buffer", "ready() full:send(2) emit('returned') while true do emit('spin') end"},
	{"select-receive", "ready() local i, v, ok = channel.select({'|<-', ch}, {'|<-', ch2}) emit('returned', i) while true do emit('spin') end"},
	{"select-send", "ready() local i = channel.select({'<-|', ch, 1}, {'|<-', ch2}) emit('returned', i) while true do emit('spin') end"},
	{"receive-tail", "ready() return ch:receive()"},
	{"send-tail", "ready() return ch:send(1)"},
	{"select-tail", "ready() return channel.select({'|<-', ch}, {'|<-', ch2})"},
	{"receive-tail-in-function", "local function f() return ch:receive() end ready() return f()"},
	{"receive-in-pcall", "ready() pcall(function() ch:receive() end) emit('returned') while true do emit('spin') end"},
	{"send-in-coroutine", "ready() local co = coroutine.wrap(function() ch:send(1) emit('co-returned') end) co() emit('returned') while true do emit('spin') end"},
}

// parkedInChannelLib: some goroutine of the dump is parked (not runnable) in a
// channel operation issued by the interpreter's channel library. Cancelling
// the context makes a goroutine that selects on ctx.Done() runnable at once,
// so a goroutine still in that state after the cancel is one the cancel
// cannot reach - however loaded the machine is.
func parkedInChannelLib(dump string) bool {
	for _, g := range strings.Split(dump, "\n\n") {
		head := g
		if i := strings.IndexByte(g, '\n'); i >= 0 {
			head = g[:i]
		}
		parked := strings.Contains(head, "[chan send") || strings.Contains(head, "[chan receive") || strings.Contains(head, "[select")
		if parked && (strings.Contains(g, "gopher-lua.channelSend") || strings.Contains(g, "gopher-lua.channelReceive") || strings.Contains(g, "gopher-lua.channelSelect")) {
			return true
		}
	}
	return false
}

func runBlocking(c *fw.Ctx, bi int, count bool) {
	b := blocking[bi]
	cs := Case{Prog: bi, Kind: "blocking", Src: b.src}
	c.Begin(cs)
	L := lua.NewState()
	defer L.Close()
	ctx, cancel := context.WithCancel(context.Background())
	defer cancel()
	L.SetContext(ctx)
	L.SetGlobal("ch", lua.LChannel(make(chan lua.LValue)))
	L.SetGlobal("ch2", lua.LChannel(make(chan lua.LValue)))
	full := make(chan lua.LValue, 1)
	full <- lua.LNumber(0)
	L.SetGlobal("full", lua.LChannel(full))
	readyCh := make(chan struct{})
	var emitAfter int32
	var spins int32
	L.SetGlobal("ready", L.NewFunction(func(L *lua.LState) int { close(readyCh); return 0 }))
	L.SetGlobal("emit", L.NewFunction(func(L *lua.LState) int {
		if ctx.Err() != nil {
			atomic.AddInt32(&emitAfter, 1)
		}
		if L.GetTop() > 0 && L.Get(1) == lua.LString("spin") {
			atomic.AddInt32(&spins, 1)
		}
		return 0
	}))
	done := make(chan error, 1)
	go func() { done <- L.DoString(b.src) }()
	<-readyCh
	// give the script goroutine the chance to park in the channel operation
	for i := 0; i < 200; i++ {
		runtime.Gosched()
	}
	time.Sleep(20 * time.Millisecond)
	cancel()
	var err error
	returned := false
	select {
	case err = <-done:
		returned = true
	case <-time.After(20 * time.Second):
	}
	if count {
		c.Count("blocking_cases_"+b.name, 1)
	}
	switch {
	case !returned:
		// nobody else holds a reference that could complete the operation: parked forever
		buf := make([]byte, 1<<16)
		n := runtime.Stack(buf, true)
		st := string(buf[:n])
		if parkedInChannelLib(st) {
			c.Violation("the script stays parked in a channel operation after its context was cancelled (no other party can complete it): "+b.name, cs)
		} else {
			c.Inconclusive("blocking case did not return within the watchdog")
		}
		// the goroutine is leaked deliberately; the worker exits soon
	case err == nil || !strings.Contains(err.Error(), "context canceled"):
		c.Violation(fmt.Sprintf("blocked %s: after cancellation the script returned %v instead of the context's reason", b.name, err), cs)
	case atomic.LoadInt32(&emitAfter) > 1:
		// one emit may be in flight between the channel operation returning and the next poll? no: emit is a CALL instruction, dispatched after a poll
		c.Violation(fmt.Sprintf("blocked %s: %d host calls completed after the context was done", b.name, emitAfter), cs)
	}
	c.End(returned, "blocking/"+b.name)
}

func run(c *fw.Ctx) {
	idx := 0
	variants := c.Pick(1, 6)
	for pi := range programs {
		for v := 0; v < variants; v++ {
			idx++
			if !c.Mine(idx) {
				continue
			}
			p1 := int(c.SubRand("p1", pi*100+v).Int31n(1000))
			runProgram(c, pi, p1, 0, true, "")
			runProgram(c, pi, p1, 0, true, "thread")
			runProgram(c, pi, p1, 0, true, "reattach")
			if spawnOK[programs[pi].name] {
				runProgram(c, pi, p1, 0, true, "spawn-none")
				runProgram(c, pi, p1, 0, true, "spawn-old")
			}
			if bareOK[programs[pi].name] {
				runProgram(c, pi, p1, 0, true, "bare")
			}
		}
	}
	// pools of states sharing one buffered channel and one context
	rounds := c.Pick(96, 800)
	for rd := 0; rd < rounds; rd++ {
		idx++
		if c.Mine(idx) {
			runPool(c, rd, true)
		}
	}
	for bi := range blocking {
		idx++
		if c.Mine(idx) {
			for rep := 0; rep < c.Pick(2, 10); rep++ {
				runBlocking(c, bi, true)
			}
		}
	}
}

func replay(c *fw.Ctx, raw json.RawMessage) {
	var cs Case
	if err := json.Unmarshal(raw, &cs); err != nil {
		fmt.Println("bad case:", err)
		return
	}
	if cs.Kind == "blocking" {
		runBlocking(c, cs.Prog, false)
		return
	}
	if cs.Kind == "pool" {
		for i := 0; i < 50; i++ {
			runPool(c, cs.Prog, false)
		}
		return
	}
	runProgram(c, cs.Prog, cs.P1, cs.K, false, cs.Mode)
}

// ---------- pools: several states, one buffered channel, one context ----------

const poolWorkers = 8

const poolSrc = `
local n = 0
while true do
  local ok, job = jobs:receive()
  if not ok then break end
  n = n + job
end
return n`

// runPool: poolWorkers states in their own goroutines take values from one
// 1-slot channel while the harness feeds it; the harness then goes quiet,
// lets the pool drain, and cancels the common context. Every worker sits in
// jobs:receive() by then and each must come back with the context's reason.
// Verdict on logical state, not on time: a worker that has not returned is a
// violation only if its goroutine is parked in a channel receive that nobody
// can complete (the harness holds the only other reference and sends nothing).
func runPool(c *fw.Ctx, round int, count bool) {
	cs := Case{Prog: round, Kind: "pool", Src: poolSrc}
	c.Begin(cs)
	ctx, cancel := context.WithCancel(context.Background())
	defer cancel()
	jobs := make(chan lua.LValue, 1)
	results := make(chan error, poolWorkers)
	var started int32
	for w := 0; w < poolWorkers; w++ {
		go func() {
			L := lua.NewState()
			defer L.Close()
			L.SetContext(ctx)
			L.SetGlobal("jobs", lua.LChannel(jobs))
			atomic.AddInt32(&started, 1)
			results <- L.DoString(poolSrc)
		}()
	}
	// feed a seed-independent number of jobs as fast as the pool takes them
	sent := 0
	for sent < 3000 {
		jobs <- lua.LNumber(1)
		sent++
	}
	// quiet: wait until the buffer is empty and stays empty
	for i := 0; i < 2000 && len(jobs) > 0; i++ {
		time.Sleep(time.Millisecond)
	}
	time.Sleep(5 * time.Millisecond)
	cancel()
	ended, wrong := 0, ""
	timeout := time.After(60 * time.Second)
loop:
	for ended < poolWorkers {
		select {
		case err := <-results:
			ended++
			if err == nil || !strings.Contains(err.Error(), "context canceled") {
				wrong = fmt.Sprintf("a pool worker ended with %v instead of the context's reason", err)
			}
		case <-timeout:
			break loop
		}
	}
	if count {
		c.Count("pool_rounds", 1)
		c.Count("pool_jobs_sent", int64(sent))
	}
	switch {
	case ended < poolWorkers:
		buf := make([]byte, 1<<18)
		st := string(buf[:runtime.Stack(buf, true)])
		if len(jobs) == 0 && parkedInChannelLib(st) {
			c.Violation(fmt.Sprintf("%d of %d states sharing a buffered channel stay parked in receive after their context was cancelled (the channel is empty and nobody sends)", poolWorkers-ended, poolWorkers), cs)
		} else {
			c.Inconclusive("pool round did not finish within the watchdog")
		}
		close(jobs) // release what is stuck
	case wrong != "":
		c.Violation(wrong, cs)
	}
	c.End(ended == poolWorkers, fmt.Sprintf("pool/%d", round))
}
